//! Normalised values, field types, outcomes and expectations shared by all channels.
use serde::{Deserialize, Serialize};
use std::borrow::Cow;

/// A deserialized field value, normalised so that it can be compared with the reference and
/// written to a replay file.
#[derive(Debug, Clone, PartialEq, Eq, Hash, Serialize, Deserialize)]
pub enum Val {
    Str(String),
    /// unsigned integer of any width
    U(u64),
    /// signed integer of any width
    I(i64),
    /// f64, stored as its bit pattern (JSON cannot hold every float exactly)
    F(u64),
    B(bool),
    C(char),
    None,
    Some(Box<Val>),
    Seq(Vec<Val>),
}

impl Val {
    pub fn f(x: f64) -> Val {
        // -0.0 and 0.0 are the same *value*; normalise so that `==` on bits is value equality.
        let x = if x == 0.0 { 0.0 } else { x };
        Val::F(x.to_bits())
    }
    pub fn some(v: Val) -> Val {
        Val::Some(Box::new(v))
    }
}

pub trait ToVal {
    fn to_val(&self) -> Val;
}
impl ToVal for String {
    fn to_val(&self) -> Val {
        Val::Str(self.clone())
    }
}
impl ToVal for &str {
    fn to_val(&self) -> Val {
        Val::Str((*self).to_string())
    }
}
impl ToVal for Cow<'_, str> {
    fn to_val(&self) -> Val {
        Val::Str(self.to_string())
    }
}
macro_rules! uval {
    ($($t:ty),*) => {$(impl ToVal for $t { fn to_val(&self) -> Val { Val::U(*self as u64) } })*};
}
uval!(u8, u16, u32, u64);
impl ToVal for i64 {
    fn to_val(&self) -> Val {
        Val::I(*self)
    }
}
impl ToVal for f64 {
    fn to_val(&self) -> Val {
        Val::f(*self)
    }
}
impl ToVal for bool {
    fn to_val(&self) -> Val {
        Val::B(*self)
    }
}
impl ToVal for char {
    fn to_val(&self) -> Val {
        Val::C(*self)
    }
}
impl<T: ToVal> ToVal for Option<T> {
    fn to_val(&self) -> Val {
        match self {
            None => Val::None,
            Some(v) => Val::some(v.to_val()),
        }
    }
}
impl<T: ToVal> ToVal for Vec<T> {
    fn to_val(&self) -> Val {
        Val::Seq(self.iter().map(|v| v.to_val()).collect())
    }
}

/// The reference's view of a field type.
#[derive(Debug, Clone, Copy, PartialEq, Eq, Hash)]
pub enum Ty {
    Str,
    /// `&'a str`: may only succeed without allocation
    BStr,
    /// `Cow<'a, str>` with `#[serde(borrow)]`
    CowStr,
    U8,
    U16,
    U32,
    U64,
    I64,
    F64,
    Bool,
    Char,
    /// `struct Id(u32)`
    NewU32,
    Opt(&'static Ty),
    Seq(&'static Ty),
}

impl Ty {
    pub fn name(&self) -> String {
        match self {
            Ty::Str => "String".into(),
            Ty::BStr => "&str".into(),
            Ty::CowStr => "Cow<str>".into(),
            Ty::U8 => "u8".into(),
            Ty::U16 => "u16".into(),
            Ty::U32 => "u32".into(),
            Ty::U64 => "u64".into(),
            Ty::I64 => "i64".into(),
            Ty::F64 => "f64".into(),
            Ty::Bool => "bool".into(),
            Ty::Char => "char".into(),
            Ty::NewU32 => "Id(u32)".into(),
            Ty::Opt(t) => format!("Option<{}>", t.name()),
            Ty::Seq(t) => format!("Vec<{}>", t.name()),
        }
    }
    /// `expected_type` that `ErrorKind::ParseErrorAtKey` documents for this type (path channel).
    pub fn path_expected_type(&self) -> Option<&'static str> {
        Some(match self {
            Ty::U8 => "u8",
            Ty::U16 => "u16",
            Ty::U32 | Ty::NewU32 => "u32",
            Ty::U64 => "u64",
            Ty::I64 => "i64",
            Ty::F64 => "f64",
            Ty::Bool => "bool",
            Ty::Char => "char",
            Ty::Opt(t) => return t.path_expected_type(),
            _ => return None,
        })
    }
}

/// What the real extractor produced.
#[derive(Debug, Clone, PartialEq, Eq, Serialize, Deserialize)]
pub enum Outcome {
    Ok(Vec<(String, Val)>),
    Err(ErrInfo),
    Panic(String),
    /// the request never reaches the extractor: `http::Uri` rejects the target
    UriRejected,
    /// the request never reaches the extractor: the router has no match
    NotRouted,
}

#[derive(Debug, Clone, PartialEq, Eq, Default, Serialize, Deserialize)]
pub struct ErrInfo {
    /// e.g. `InvalidUtf8InPathParameter`, `PathDeserializationError::ParseErrorAtKey`,
    /// `QueryDeserializationError`, `ContentTypeMismatch`, …
    pub variant: String,
    pub key: Option<String>,
    pub value: Option<String>,
    pub expected_type: Option<String>,
    pub actual: Option<String>,
    pub display: String,
}

/// A pattern over `ErrInfo`; `None` = do not care.
#[derive(Debug, Clone, PartialEq, Eq, Default, Serialize, Deserialize)]
pub struct ErrPat {
    /// prefix match on `ErrInfo::variant`
    pub variant: String,
    pub key: Option<String>,
    pub value: Option<String>,
    pub expected_type: Option<String>,
    pub actual: Option<String>,
    /// every listed needle must occur in the `Display` of the error
    #[serde(default)]
    pub display_contains: Vec<String>,
}

impl ErrPat {
    pub fn variant(v: &str) -> ErrPat {
        ErrPat {
            variant: v.to_string(),
            ..Default::default()
        }
    }
    pub fn matches(&self, e: &ErrInfo) -> bool {
        fn m(p: &Option<String>, a: &Option<String>) -> bool {
            match p {
                None => true,
                Some(p) => a.as_deref() == Some(p.as_str()),
            }
        }
        e.variant.starts_with(&self.variant)
            && m(&self.key, &e.key)
            && m(&self.value, &e.value)
            && m(&self.expected_type, &e.expected_type)
            && m(&self.actual, &e.actual)
            && self.display_contains.iter().all(|n| e.display.contains(n.as_str()))
    }
}

/// Expectation for one field: the set of acceptable values and the acceptable errors.
/// `ok` empty ⇒ an error is mandatory; `err` empty ⇒ success is mandatory.
#[derive(Debug, Clone, Default)]
pub struct FieldExpect {
    pub ok: Vec<Val>,
    pub err: Vec<ErrPat>,
}

impl FieldExpect {
    pub fn must(v: Val) -> Self {
        FieldExpect {
            ok: vec![v],
            err: vec![],
        }
    }
    pub fn must_err(p: ErrPat) -> Self {
        FieldExpect {
            ok: vec![],
            err: vec![p],
        }
    }
    pub fn either(v: Val, p: ErrPat) -> Self {
        FieldExpect {
            ok: vec![v],
            err: vec![p],
        }
    }
    pub fn map_ok(mut self, f: impl Fn(Val) -> Val) -> Self {
        self.ok = self.ok.into_iter().map(f).collect();
        self
    }
}

/// Expectation for a whole extraction.
#[derive(Debug, Clone, PartialEq, Eq, Serialize, Deserialize)]
pub struct Expect {
    /// oracle branch, used for the histogram and the violation key
    pub class: String,
    /// acceptable successful results (each a full field list, sorted by field name)
    pub ok: Vec<Vec<(String, Val)>>,
    pub err: Vec<ErrPat>,
    /// the request is expected not to reach the extractor at all
    #[serde(default)]
    pub undeliverable: bool,
}

impl Expect {
    /// Combine per-field expectations (cartesian product of acceptable values, union of errors).
    pub fn combine(class: &str, fields: Vec<(String, FieldExpect)>) -> Expect {
        let mut oks: Vec<Vec<(String, Val)>> = vec![vec![]];
        let mut errs: Vec<ErrPat> = vec![];
        let mut all_ok_possible = true;
        for (name, fe) in fields {
            for e in fe.err {
                if !errs.contains(&e) {
                    errs.push(e);
                }
            }
            if fe.ok.is_empty() {
                all_ok_possible = false;
            }
            if all_ok_possible {
                let mut next = Vec::new();
                for base in &oks {
                    for v in &fe.ok {
                        let mut b = base.clone();
                        b.push((name.clone(), v.clone()));
                        next.push(b);
                    }
                }
                oks = next;
            }
        }
        if !all_ok_possible {
            oks.clear();
        }
        for o in &mut oks {
            o.sort_by(|a, b| a.0.cmp(&b.0));
        }
        Expect {
            class: class.to_string(),
            ok: oks,
            err: errs,
            undeliverable: false,
        }
    }
    pub fn only_err(class: &str, errs: Vec<ErrPat>) -> Expect {
        Expect {
            class: class.to_string(),
            ok: vec![],
            err: errs,
            undeliverable: false,
        }
    }
    pub fn allow_err(mut self, p: ErrPat) -> Expect {
        if !self.err.contains(&p) {
            self.err.push(p);
        }
        self
    }
}

/// Result of comparing an outcome with an expectation: `None` = conforms,
/// `Some(kind)` = violation of that abstract kind.
pub fn judge(exp: &Expect, out: &Outcome) -> Option<&'static str> {
    match out {
        Outcome::Panic(_) => Some("panic"),
        Outcome::UriRejected | Outcome::NotRouted => {
            if exp.undeliverable {
                None
            } else {
                Some("undeliverable")
            }
        }
        Outcome::Ok(fields) => {
            if exp.undeliverable {
                return Some("delivered-unexpectedly");
            }
            let mut f = fields.clone();
            f.sort_by(|a, b| a.0.cmp(&b.0));
            if exp.ok.iter().any(|o| *o == f) {
                None
            } else if exp.ok.is_empty() {
                Some("ok-instead-of-error")
            } else {
                Some("wrong-value")
            }
        }
        Outcome::Err(e) => {
            if exp.undeliverable {
                return Some("delivered-unexpectedly");
            }
            if exp.err.iter().any(|p| p.matches(e)) {
                None
            } else if exp.err.is_empty() {
                Some("error-instead-of-value")
            } else {
                Some("wrong-error")
            }
        }
    }
}
