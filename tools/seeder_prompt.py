#!/usr/bin/env python3
"""Print the brief handed to an independent seeding sub-agent for one property (round N).

usage: seeder_prompt.py <P> <round>      e.g. seeder_prompt.py C07 3

The brief contains ONLY: the property record, the scratch worktree location, the offline recipe for running
pavexc, the output layout expected by tools/confirm_seed.py, and one-line summaries of the changes earlier
seeders produced for that property (so that the new ones use other mechanisms). Nothing about the checks.
"""
import glob
import json
import sys

p, rnd = sys.argv[1], sys.argv[2]
prop = None
for line in open("/verif/properties.jsonl"):
    d = json.loads(line)
    if d["id"] == p:
        prop = d
prev = []
for m in sorted(glob.glob(f"/verif/seeded/{p}-*/meta.json")):
    d = json.load(open(m))
    prev.append("- " + (d.get("summary") or "")[:420].replace("\n", " "))
wt = f"/tmp/seed{rnd}-{p}"
print(f"""You are helping to evaluate a verification effort for the Rust project LukeMathWalker/pavex (a backend
framework whose compiler `pavexc` reads a blueprint + rustdoc JSON and generates server code). Your job is to
play the adversary: produce TWO independent, realistic source changes to pavex, each of which BREAKS the property
below while the project still compiles and its existing tests still pass, each with a demonstration.

## Where you work
* Your own scratch git worktree of the repository: `{wt}` (already created). Work ONLY there and in
  `/tmp/seed{rnd}-{p}-*` scratch directories. Never touch `/repo` or `/verif` and do not read `/verif`.
* No network. Always pass `--offline` to cargo (or export CARGO_NET_OFFLINE=true). Use
  `export CARGO_TARGET_DIR={wt}-target CARGO_PROFILE_DEV_DEBUG=0 CARGO_INCREMENTAL=0` for every cargo command so
  that build output stays out of the worktree and small. 16 cores are shared with other jobs.

## The property (given, fixed)
```json
{json.dumps(prop, indent=1)}
```

## What to produce (twice: SEED1 and SEED2, using different mechanisms in different code)
A change to the repository's sources (runtime/, compiler/ or rustdoc/ crates; not tests, not docs) such that
1. the workspace still compiles and the existing tests of every crate you touched still pass
   (`cargo test --offline -p <crate>` — run them and make sure; for pavex_session_sqlx only `--lib --test sqlite`
   can run here);
2. the property above no longer holds — in the sense of its statement, not merely "some behaviour changed";
3. it looks like something a real contributor could plausibly write (a refactor, an optimisation, a "simplification",
   a caching layer, an off-by-one, a reordered step, two sites that each look fine alone) — no sabotage comments,
   no `if input == magic`;
4. it needs something SPECIFIC to manifest: a particular interleaving, a fault or crash at a particular point, a
   multi-step sequence of operations, an unusual input or blueprint shape, a particular combination of features, or
   two cooperating sites. A change that ordinary use (the simplest blueprint, the first request, the happy path)
   would expose at once is NOT wanted.
Earlier rounds already produced the following changes for this property; use clearly different mechanisms and, if
possible, different files/functions:
{chr(10).join(prev) if prev else "- (none)"}

## Demonstration
For each seed a demonstration that FAILS with the change and PASSES without it:
* either a single Rust test file that can be dropped into an existing crate's `tests/` directory (say so in
  `demo/RUN.md` with a line of the exact form `cp SEEDn/demo/<file>.rs <crate dir>/tests/` and the cargo test command),
* or `demo/run.sh`, run from the worktree root with or without the patch applied: exit 0 = property holds,
  exit 1 = property broken (any other code = the demo could not be built). It must rebuild what it needs from the
  worktree (so that it sees the change) and keep ALL scratch output under `/tmp/seed{rnd}-{p}-*`.

If the demonstration needs the compiler (`pavexc`) — properties about generated code — this is how it runs offline
in this sandbox (a docs toolchain named `pavex-verif-docs` is already registered with rustup; it is the only one
that works):
```bash
cd {wt} && cargo build --offline -q -p pavexc_cli          # -> $CARGO_TARGET_DIR/debug/pavexc  (about 1-2 min)
# an application = a cargo workspace OUTSIDE the worktree, e.g. /tmp/seed{rnd}-{p}-app, with
#   app/      (lib crate with the annotated components + `src/bin/bp.rs` that builds the Blueprint and calls
#              `bp.persist(Path::new("bp.ron"))`), depending on pavex by path: {wt}/runtime/pavex
#   generated/ (output of pavexc), driver/ (binary that starts the generated server and sends requests)
# copy {wt}/Cargo.lock into the workspace root so that every dependency resolves offline; only crates already in
# that lock file are available (tokio, reqwest is NOT; use raw TCP or hyper/http from the lock file).
cargo run --offline -q -p app --bin bp
HOME=/tmp/seed{rnd}-{p}-home RUSTUP_HOME=/root/.rustup CARGO_HOME=/root/.cargo PAVEXC_COLOR=never \\
  $CARGO_TARGET_DIR/debug/pavexc generate -b bp.ron -o generated --docs-toolchain pavex-verif-docs
# first run documents the dependencies (3-4 min), later runs ~20 s. Look at {wt}/examples and
# {wt}/compiler/ui_tests/* for how applications, blueprints and `ApplicationState::new` / `run(...)` are written.
```
The generated crate is a normal library: `generated::ApplicationState::new(..)`, `generated::run(server_builder, state)`.

## Output layout (exactly this, inside the worktree, untracked)
```
{wt}/SEED1/patch.diff     `git diff` of the repository files only (must apply with `git apply` on a clean worktree)
{wt}/SEED1/meta.json      {{"breaks": "{p}", "summary": "<what was changed, where, why it breaks the property>",
                            "needs_to_manifest": "<the specific thing needed>", "files_changed": ["path", ...]}}
{wt}/SEED1/demo/          RUN.md (+ run.sh or the test file, plus any app/driver sources; no build output)
{wt}/SEED2/...            same
```
Before you finish: for each seed verify yourself, from a clean worktree, (a) demo passes without the patch,
(b) patch applies, demo fails with it, (c) the existing tests of the touched crates pass with it. Then leave the
worktree's tracked files clean (`git checkout -- .`), keep SEED1/ SEED2/, and delete your `/tmp/seed{rnd}-{p}-*`
scratch directories EXCEPT `{wt}-target` (it is reused to confirm your work). If after a serious attempt you can
only produce one seed, say so. Reply with a short report: for each seed the files changed, what is needed to
manifest, and the exact commands you ran with their results.""")
