#!/usr/bin/env python3
"""Run registered checks against a seeded change, by the official procedure:
   git -C /repo apply <patch>; ./check <P> --tier quick ...; git -C /repo apply -R <patch>.

usage: eval_seed.py <seed-dir containing patch.diff and meta.json> [--props C01,C02] [--tier quick]
Writes <seed-dir>/result.json and prints a one-line summary per property.
NEVER leaves /repo modified: the patch is reverted in a finally block and `git status` is verified.
"""
import json
import os
import subprocess
import sys
import time


def sh(cmd, **kw):
    return subprocess.run(cmd, shell=True, stdout=subprocess.PIPE, stderr=subprocess.STDOUT, text=True, **kw)


def main():
    seed = os.path.abspath(sys.argv[1])
    tier = "quick"
    props = None
    args = sys.argv[2:]
    if "--props" in args:
        props = args[args.index("--props") + 1].split(",")
    if "--tier" in args:
        tier = args[args.index("--tier") + 1]
    meta = json.load(open(f"{seed}/meta.json"))
    if props is None:
        props = [meta.get("breaks") or meta.get("property")]
    patch = f"{seed}/patch.diff"
    # /repo is shared with fix commits: whoever modifies its working tree holds this lock
    import fcntl
    lock = open("/verif/work/repo.lock", "w")
    fcntl.flock(lock, fcntl.LOCK_EX)
    st = sh("git -C /repo status --porcelain").stdout.strip()
    if st:
        print("refusing: /repo is not clean:\n" + st)
        sys.exit(2)
    r = sh(f"git -C /repo apply --check {patch}")
    if r.returncode != 0:
        print("patch does not apply:\n" + r.stdout)
        sys.exit(2)
    results = {}
    sh(f"git -C /repo apply {patch}")
    try:
        for p in props:
            t0 = time.time()
            r = sh(f"cd /verif && ./check {p} --tier {tier}")
            lines = [l for l in r.stdout.splitlines() if l.startswith(("VIOLATION", "KNOWN-FINDING", "RESULT", "MACHINERY-ERROR", "  detail"))]
            results[p] = {"exit": r.returncode, "wall_s": round(time.time() - t0, 1), "lines": lines[:40],
                          "detected": r.returncode == 1 and any(l.startswith("VIOLATION") for l in lines)}
            print(f"{os.path.basename(seed)} {p}: exit={r.returncode} detected={results[p]['detected']} "
                  f"({results[p]['wall_s']}s) " + (next((l for l in lines if l.startswith("  detail")), "")[:160]))
            if r.returncode == 2:
                print(r.stdout[-1500:])
    finally:
        sh(f"git -C /repo apply -R {patch}")
        st = sh("git -C /repo status --porcelain").stdout.strip()
        if st:
            print("WARNING: /repo not clean after revert:\n" + st)
        sh("git -C /verif checkout -- evidence")
    with open(f"{seed}/result.json", "w") as f:
        json.dump({"tier": tier, "results": results, "at": time.strftime("%F %T")}, f, indent=1)


if __name__ == "__main__":
    main()
