#!/usr/bin/env python3
"""Copy a confirmed seeded change into /verif/seeded/<P>-s<n>/ (patch.diff, demo/, meta.json).

usage: keep_seed.py <P> <n> [--source /tmp/seed-<P>/SEED<n>] [--name s3] [--conf <confirm json>]
meta.json records: which property it breaks, what it needs in order to manifest, what was run to
confirm it (tools/confirm_seed.py output) and which checks detected it (evaluation output)."""
import json
import os
import shutil
import sys

p, n = sys.argv[1], sys.argv[2]
src = f"/tmp/seed-{p}/SEED{n}"
if "--source" in sys.argv:
    src = sys.argv[sys.argv.index("--source") + 1]
name = sys.argv[sys.argv.index("--name") + 1] if "--name" in sys.argv else f"s{n}"
dst = f"/verif/seeded/{p}-{name}"
conf_path = sys.argv[sys.argv.index("--conf") + 1] if "--conf" in sys.argv else f"/verif/work/confirm/{p}-{n}.json"
conf = json.load(open(conf_path)) if os.path.exists(conf_path) else None
if not conf or not conf.get("confirmed"):
    print(f"{p}-{n}: NOT confirmed, not kept")
    sys.exit(1)
os.makedirs(dst, exist_ok=True)
shutil.copy(f"{src}/patch.diff", f"{dst}/patch.diff")
if os.path.isdir(f"{dst}/demo"):
    shutil.rmtree(f"{dst}/demo")
shutil.copytree(f"{src}/demo", f"{dst}/demo", ignore=shutil.ignore_patterns("target", "*.lock", "generated", "Cargo.lock"))
orig = json.load(open(f"{src}/meta.json"))
ev_path = f"/verif/work/evalseeds/{p}-{n}.json" if "--name" not in sys.argv else "/nonexistent"
ev = None
if os.path.exists(ev_path):
    txt = open(ev_path).read()
    try:
        ev = json.loads(txt[txt.index("{"):txt.rindex("}") + 1])
    except Exception:
        ev = {"raw": txt[-800:]}
old = json.load(open(f"{dst}/meta.json")) if os.path.exists(f"{dst}/meta.json") else {}
meta = {
    "breaks": p,
    "summary": orig.get("summary"),
    "needs_to_manifest": orig.get("what_it_needs_to_manifest") or orig.get("needs_to_manifest"),
    "files_changed": orig.get("files_changed"),
    "origin": "independent sub-agent given only the property text and a scratch worktree",
    "confirmed_by_me": {
        "how": "tools/confirm_seed.py in the seed's scratch worktree",
        "demo_kind": conf.get("demo_kind"),
        "existing_tests": [{"cmd": e["cmd"], "exit": e["exit"]} for e in conf.get("existing", [])],
        "demo_without_change_exit": conf["without"]["exit"],
        "demo_with_change_exit": conf["with"]["exit"],
    },
    "detection": old.get("detection", []),
}
if ev:
    meta["detection"].append({"procedure": "scratch harness copy pointing at a worktree with the patch (tools/eval_seed_scratch.py)",
                              "property": ev.get("property"), "exit": ev.get("exit"), "detected": ev.get("detected"),
                              "lines": ev.get("lines", [])[:4]})
for off in (f"{src}/result-first.json", f"{src}/result.json"):
    if not os.path.exists(off):
        continue
    r = json.load(open(off))
    if any(d.get("at") == r.get("at") for d in meta["detection"]):
        continue
    meta["detection"] = [d for d in meta["detection"] if d.get("procedure", "").startswith("scratch") or (d.get("at") and d.get("at") != r.get("at"))]
    for prop, res in r["results"].items():
        meta["detection"].append({"procedure": "official: git -C /repo apply patch.diff; ./check %s --tier %s; git -C /repo apply -R" % (prop, r["tier"]),
                                  "at": r.get("at"), "property": prop, "exit": res["exit"], "detected": res["detected"], "wall_s": res["wall_s"],
                                  "lines": [l[:300] for l in res["lines"][:4]]})
json.dump(meta, open(f"{dst}/meta.json", "w"), indent=1)
print(f"{p}-{name}: kept; detected={[d.get('detected') for d in meta['detection']]}")
