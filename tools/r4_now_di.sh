#!/usr/bin/env bash
# usage: r4_now_di.sh <letter> <seedP> <n>   — targeted re-measurement with only the DI-INH / DI-ABA shapes (tools/di_new_shapes.py)
L=$1; sp=$2; n=$3; WT=/tmp/eval4-$L
cd $WT && git checkout -q -- . && git clean -fdq && git apply /verif/seeded/$sp-r4s$n/patch.diff || exit 2
out=/verif/work/evalseeds/r4-now-$sp-$n-C04.json
t0=$(date +%s)
log=$(cd /verif && VERIF_EVIDENCE_DIR=/verif/work/seed-evidence VERIF_E2E_REPO=$WT VERIF_E2E_NS=-r4$L python3 tools/di_new_shapes.py 2>&1)
cd $WT && git checkout -q -- . && git clean -fdq
python3 - "$out" "$sp" "$n" "$(( $(date +%s) - t0 ))" <<PY
import json, sys, re
log = """$(echo "$log" | grep -E '^(VIOLATION|RESULT|  detail|MACHINERY)' | head -30 | sed 's/"""/"/g')"""
lines = log.splitlines()
det = any(l.startswith("VIOLATION") for l in lines)
json.dump({"property": "C04", "families": "di (DI-INH / DI-ABA shapes only)", "patch": f"/tmp/seed4-{sys.argv[2]}/SEED{sys.argv[3]}/patch.diff", "detected": det,
           "exit": 1 if det else 0, "wall_s": int(sys.argv[4]),
           "procedure": "targeted: the DI-INH / DI-ABA shapes of the di family (tools/di_new_shapes.py), oracles C09/C02/C01/C03/C04, pavexc built from a scratch worktree with the patch",
           "lines": [l[:400] for l in lines][:10]}, open(sys.argv[1], "w"), indent=1)
print(sys.argv[2], sys.argv[3], "detected", det)
PY
