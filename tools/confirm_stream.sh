#!/usr/bin/env bash
# usage: confirm_stream.sh <round> P1 P2 ...   — confirms /tmp/seed<round>-<P>/SEED{1,2} sequentially, each with the
# seeder's own target dir (already holds a baseline build); results in /verif/work/confirm/r<round>-<P>-<n>.json
rnd=$1; shift
for p in "$@"; do
  for n in 1 2; do
    wt=/tmp/seed$rnd-$p; d=$wt/SEED$n
    [ -f $d/patch.diff ] || continue
    [ -f /verif/work/confirm/r$rnd-$p-$n.json ] && continue
    CONFIRM_TARGET=$wt-target python3 /verif/tools/confirm_seed.py $wt $d /verif/work/confirm/r$rnd-$p-$n.json
  done
done
