#!/usr/bin/env bash
# usage: eval_all_scratch.sh C13 C14 ... (sequential; results in /verif/work/evalseeds/<P>-<n>.json)
for p in "$@"; do
  for n in 1 2; do
    d=/tmp/seed-$p/SEED$n
    [ -f $d/patch.diff ] || continue
    [ -s /verif/work/evalseeds/$p-$n.json ] && continue
    python3 /verif/tools/eval_seed_scratch.py $p /tmp/eval-wt $d/patch.diff > /verif/work/evalseeds/$p-$n.json 2>&1
    grep -h '"detected"\|patch does not apply\|BUILD FAILED' /verif/work/evalseeds/$p-$n.json | head -2 | sed "s/^/$p-$n /"
  done
done
