#!/usr/bin/env python3
"""Targeted re-measurement of a seeded change with the CURRENT harness: only the named families of the e2e engine are
observed (pavexc built from a scratch worktree with the patch applied, private namespace), then the property's oracle is
evaluated on them. Much cheaper than the full quick tier; used to check that an extension reaches a seed. The official
procedure (tools/eval_seed.py) remains the reference.

usage: now_family.py <property> <fam1,fam2> <scratch worktree> <patch.diff> <namespace> <out.json>
"""
import json
import os
import subprocess
import sys
import time

prop, fams, wt, patch, ns, out = sys.argv[1:7]
wt, patch = os.path.abspath(wt), os.path.abspath(patch)
if os.environ.get("NOW_FAMILY_CHILD") != "1":
    def sh(cmd, **kw):
        return subprocess.run(cmd, shell=True, stdout=subprocess.PIPE, stderr=subprocess.STDOUT, text=True, **kw)
    sh("git checkout -- . && git clean -fdq", cwd=wt)
    r = sh(f"git apply {patch}", cwd=wt)
    if r.returncode != 0:
        print("patch does not apply", r.stdout)
        sys.exit(2)
    t0 = time.time()
    try:
        env = dict(os.environ, VERIF_E2E_REPO=wt, VERIF_E2E_NS=ns, NOW_FAMILY_CHILD="1", VERIF_EVIDENCE_DIR="/verif/work/seed-evidence")
        r = sh(" ".join([sys.executable] + [os.path.abspath(__file__)] + sys.argv[1:]), cwd="/verif", env=env)
        lines = [l for l in r.stdout.splitlines() if l.startswith(("VIOLATION", "RESULT", "MACHINERY-ERROR", "  detail"))]
        detected = any(l.startswith("VIOLATION") for l in lines)
        json.dump({"property": prop, "families": fams, "patch": patch, "exit": r.returncode, "detected": detected,
                   "wall_s": round(time.time() - t0, 1), "at": time.strftime("%Y-%m-%d %H:%M:%S"),
                   "procedure": f"targeted: families [{fams}] of the current harness, pavexc built from a scratch worktree with the patch",
                   "lines": [l[:400] for l in lines][:10], "tail": r.stdout[-1500:] if not lines else ""}, open(out, "w"), indent=1)
        print(prop, fams, os.path.basename(os.path.dirname(patch)), "detected", detected, f"{time.time() - t0:.0f}s")
    finally:
        sh("git checkout -- . && git clean -fdq", cwd=wt)
    sys.exit(0)

sys.path.insert(0, "/verif/engines/e2e")
import lib_e2e as L  # noqa: E402
import orchestrator  # noqa: E402
import oracles as O  # noqa: E402
from report import Reporter  # noqa: E402

L.ensure_built()
L.warm_cache()
th = L.tree_hash()
obs = {f: orchestrator.load_family(f, "quick", th) for f in fams.split(",")}
for _ in range(10):  # a chained oracle may insist on the observations of another family: load it and try again
    rep = Reporter(prop, "quick", 0)
    try:
        level, cov, asm = O.ORACLES[prop](obs, rep, "quick")
        break
    except KeyError as e:
        fam = e.args[0]
        if fam in obs or not isinstance(fam, str):
            raise
        print(f"(loading family {fam} as well)")
        obs[fam] = orchestrator.load_family(fam, "quick", th)
n = rep.new_violations()
print(f"RESULT property={prop} families={fams} violations={n}")
