#!/usr/bin/env bash
# usage: eval_frozen_stream.sh <round> <worktree> <namespace> P1 P2 ...
rnd=$1; wt=$2; ns=$3; shift 3
mkdir -p /verif/work/evalseeds
for p in "$@"; do
  for n in 1 2; do
    d=/tmp/seed$rnd-$p/SEED$n
    [ -f $d/patch.diff ] || continue
    out=/verif/work/evalseeds/r$rnd-first-$p-$n.json
    [ -s $out ] && continue
    python3 /verif/tools/eval_frozen.py $p $wt $d/patch.diff /verif/work/frozen-r$rnd/e2e $ns $out
  done
done
