#!/usr/bin/env python3
"""Development-time evaluation of a seeded change WITHOUT touching /repo (other builders may be using
it): the patch is applied in the seed's own worktree and the engine is built from a scratch copy of
the harness workspace whose path dependencies point at that worktree. The official procedure
(tools/eval_seed.py: apply to /repo, run ./check) is used for the final record.

usage: eval_seed_scratch.py <property> <worktree> <patch.diff> [--tier quick]
"""
import json
import os
import re
import shutil
import subprocess
import sys
import time

sys.path.insert(0, "/verif")
RUST = {"C11": "session_mc", "C12": "session_mc", "C13": "store_mc", "C14": "rt_body", "C15": "rt_extract",
        "C16": "server_mc", "C17": "rt_typealg", "C18": "rt_config", "C19": "rt_bp", "C20": "rt_domain"}


def sh(cmd, **kw):
    return subprocess.run(cmd, shell=True, stdout=subprocess.PIPE, stderr=subprocess.STDOUT, text=True, **kw)


def main():
    prop, wt, patch = sys.argv[1], os.path.abspath(sys.argv[2]), os.path.abspath(sys.argv[3])
    tier = "quick"
    if "--tier" in sys.argv:
        tier = sys.argv[sys.argv.index("--tier") + 1]
    sh("git checkout -- .", cwd=wt)
    r = sh(f"git apply {patch}", cwd=wt)
    if r.returncode != 0:
        print("patch does not apply", r.stdout)
        sys.exit(2)
    t0 = time.time()
    try:
        if prop in RUST:
            pkg = RUST[prop]
            eng = f"/tmp/eval-eng-{prop}"
            shutil.rmtree(eng, ignore_errors=True)
            sh(f"rsync -a --exclude e2e/app --exclude '*/mutants' --exclude target /verif/engines/ {eng}/")
            for root, _d, files in os.walk(eng):
                for fn in files:
                    if fn in ("Cargo.toml", "build.rs") or fn.endswith(".rs"):
                        p = os.path.join(root, fn)
                        s = open(p).read()
                        if "/repo" in s:
                            open(p, "w").write(s.replace("/repo/", wt + "/").replace('"/repo"', f'"{wt}"'))
            b = sh(f"CARGO_TARGET_DIR=/tmp/eval-target cargo build --release --offline -p {pkg}", cwd=eng)
            if b.returncode != 0:
                print("BUILD FAILED\n" + b.stdout[-3000:])
                sys.exit(2)
            r = sh(f"/tmp/eval-target/release/{pkg} --property {prop} --tier {tier}", cwd="/verif")
            shutil.rmtree(eng, ignore_errors=True)
        else:
            env = dict(os.environ, VERIF_E2E_REPO=wt, VERIF_E2E_NS="-eval")
            r = sh(f"python3 /verif/engines/e2e/orchestrator.py {prop} --tier {tier}", cwd="/verif", env=env)
        lines = [l for l in r.stdout.splitlines() if l.startswith(("VIOLATION", "KNOWN-FINDING", "RESULT", "MACHINERY-ERROR", "  detail"))]
        detected = r.returncode == 1 and any(l.startswith("VIOLATION") for l in lines)
        print(json.dumps({"property": prop, "patch": patch, "exit": r.returncode, "detected": detected,
                          "wall_s": round(time.time() - t0, 1), "lines": [l[:300] for l in lines[:12]]}, indent=1))
        if r.returncode == 2:
            print(r.stdout[-2000:])
    finally:
        sh("git checkout -- .", cwd=wt)
        sh("git clean -fdq -e 'SEED*'", cwd=wt)
        pass  # evidence files are restored by the caller (work/final-evidence-*)


main()
