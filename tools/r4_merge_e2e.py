#!/usr/bin/env python3
"""Round 4: fold the per-(seed, property, families) targeted measurements r4-<tag>-<seed>-<n>-<prop>.json into the one file per seed
that tools/keep_r3.py reads (r4-first-<seed>-<n>.json / r4-now-<seed>-<n>.json): the detecting measurement if there is one, else
the first; the others are listed under `also_measured`."""
import glob
import json
import os
import re
D = "/verif/work/evalseeds"
groups = {}
for f in sorted(glob.glob(f"{D}/r4-*-C??-?-C??.json")):
    m = re.match(r"r4-(first|now)-(C\d\d)-(\d)-(C\d\d)\.json", os.path.basename(f))
    if not m:
        continue
    tag, sp, n, prop = m.groups()
    try:
        d = json.load(open(f))
    except Exception:
        continue
    groups.setdefault((tag, sp, n), []).append(d)
for (tag, sp, n), ds in groups.items():
    best = next((d for d in ds if d.get("detected")), ds[0])
    best = dict(best)
    best["also_measured"] = [{"property": d.get("property"), "families": d.get("families"), "detected": d.get("detected"), "exit": d.get("exit")}
                             for d in ds if d is not best]
    json.dump(best, open(f"{D}/r4-{tag}-{sp}-{n}.json", "w"), indent=1)
    print(tag, sp, n, "detected" if best.get("detected") else "missed", best.get("property"), best.get("families"))
