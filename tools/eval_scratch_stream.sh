#!/usr/bin/env bash
# usage: eval_scratch_stream.sh <round> <worktree> P1 P2 ... — Rust-engine properties, scratch harness copy, no /repo edits
rnd=$1; wt=$2; shift 2
mkdir -p /verif/work/evalseeds
for p in "$@"; do
  for n in 1 2; do
    d=/tmp/seed$rnd-$p/SEED$n
    [ -f $d/patch.diff ] || continue
    out=/verif/work/evalseeds/r$rnd-first-$p-$n.json
    [ -s $out ] && continue
    python3 /verif/tools/eval_seed_scratch.py $p $wt $d/patch.diff > $out 2>&1
    grep -h '"detected"\|patch does not apply\|BUILD FAILED' $out | head -2 | sed "s/^/$p-$n /"
  done
done
