#!/usr/bin/env bash
# Run a command while holding the lock that tools/eval_seed.py takes around "apply seed .. revert":
# guarantees /repo's working tree is the committed one for the duration.
exec 9>/verif/work/repo.lock
flock 9
if [ -n "$(git -C /repo status --porcelain)" ]; then echo "with_repo_lock: /repo not clean"; git -C /repo status --short; exit 3; fi
"$@"
