#!/usr/bin/env bash
# usage: r4_now_rt.sh <tag> "P n" ...  — scratch re-measurement of runtime seeds with the current engines
tag=$1; shift
for pn in "$@"; do
  set -- $pn; p=$1; n=$2
  out=/verif/work/evalseeds/r4-$tag-$p-$n.json
  python3 /verif/tools/eval_seed_scratch.py $p /tmp/eval4-wt /tmp/seed4-$p/SEED$n/patch.diff > $out 2>&1
  grep -h '"detected"\|patch does not apply\|BUILD FAILED' $out | head -2 | sed "s/^/$tag $p-$n /"
done
