#!/usr/bin/env python3
"""Regenerate /verif/MANIFEST.json from the table below (kept here so that the manifest stays
consistent with /verif/check and DESIGN.md)."""
import json
import subprocess

E2E_NOTE = ("Trusted: rustc/cargo, the installed nightly's rustdoc JSON (stand-in for pavexc's pinned docs toolchain, same "
            "format version), the instrumented component library verif_app (bodies are instrumentation only), the reference "
            "model engines/e2e/refmodel.py. Bounds: engines/e2e/families.py. Observations are shared between C01-C09 and cached "
            "by a hash of /repo's sources + the harness (never reused across different trees).")

CHECKS = {
    "C01": dict(engine="e2e", cat="exploration", tech="bounded-exhaustive blueprint enumeration through the real pavexc + rustc",
                text="Every blueprint of the DI/DIMW/MW/ERR/MIX/LT/PROGS/SRC families (all dependency-graph shapes, lifecycles, cloning policies, "
                     "middleware words, error plumbing, prebuilt and configuration types as value sources, up to the stated bounds) that the real `pavexc generate` accepts is compiled "
                     "by rustc with the emitted manifest; any compile error of an accepted program is a violation.",
                ref="§4 C01"),
    "C02": dict(engine="e2e", cat="exploration", tech="bounded-exhaustive blueprint enumeration vs reference class predicate",
                text="Every enumerated blueprint that the reference model places inside the rule-abiding class (narrower than the "
                     "compiler's own acceptance) must be accepted by the real pavexc with no error diagnostic (incl. the SRC family: prebuilt / "
                     "configuration types under every cloning policy and consumer set, and the ownership cells of BADSIG whose values are all clonable).",
                ref="§4 C02"),
    "C03": dict(engine="e2e", cat="exploration", tech="bounded-exhaustive program x request x fault-plan enumeration on the generated server",
                text="For every accepted enumerated blueprint the generated server is run on loopback; for every request and "
                     "single-fault plan the construction/clone/consumption events are checked against the lifecycle rules "
                     "(singleton once at startup, request-scoped once per request and shared, transient per injection); prebuilt and configuration "
                     "values (SRC family): one instance per process, supplied by the application, seen by every consumer.",
                ref="§4 C03"),
    "C04": dict(engine="e2e", cat="exploration", tech="bounded-exhaustive program x request enumeration on the generated server",
                text="Same executions as C03; every injected value must have been built by the constructor the reference "
                     "resolution designates, constructed before use, and never-clone values must never be cloned.",
                ref="§4 C04"),
    "C05": dict(engine="e2e", cat="exploration", tech="bounded-exhaustive middleware-word enumeration vs reference interpreter",
                text="All words over {pre, post, wrap} up to the bound, with nesting points and later-registered middlewares, "
                     "every continue/early-return choice: the recorded invocation sequence must equal the stage interpreter's.",
                ref="§4 C05"),
    "C06": dict(engine="e2e", cat="exploration", tech="bounded-exhaustive fault-plan enumeration vs reference interpreter",
                text="Pipelines of fallible components x observer placements x error-handler designation x every single failing "
                     "component: handler designation, exactly-once observers in order, short-circuiting and the final response "
                     "must match the reference interpreter.",
                ref="§4 C06"),
    "C07": dict(engine="e2e", cat="exploration", tech="bounded-exhaustive route-table enumeration through the real pavexc, rustc and generated server vs reference router",
                text="All route tables of <=2 (quick) / <=3 (thorough) routes over a path x method-guard alphabet x nesting structure x fallback placement "
                     "x domain guards; every accepted table is served and probed with every request of the request alphabet (paths of <=3 segments, "
                     "4 methods, 6 Host values); the component that logged each request and the AllowedMethods / Allow header must be the ones a "
                     "reference router written from the documentation designates.",
                ref="§4 C07 (plug-in engines/e2e/fam_route.py)"),
    "C08": dict(engine="e2e", cat="exploration", tech="bounded-exhaustive single-violation planting into accepted base blueprints, real pavexc verdict",
                text="Each of the documented compile-time rules is planted, alone, at every applicable position (level, consumer kind, graph depth) of a "
                     "greedy cover of accepted base blueprints (flat, nested once, nested twice); pavexc must exit non-zero with an error diagnostic "
                     "and write no SDK. Thorough adds all pairs of plants on 6 bases.",
                ref="§4 C08 (plug-in engines/e2e/fam_plant.py)"),
    "C10": dict(engine="e2e", cat="exploration", tech="exhaustive history enumeration x bounded deterministic hash-seed/thread sweep (getrandom interposer + ASLR off) on the real pavexc",
                text="All histories of length <=2 (quick) / <=3 (thorough) over {generate P/Q/Q', wipe cache, --check, --check --diagnostics, edit+--check, "
                     "delete outputs}, perturbation histories (the generated files edited in place between runs: CRLF, final newline, comment, blank "
                     "line, flipped byte) and a sweep of hash seeds x rayon pool sizes over programs chosen to populate every hash-keyed table: output bytes "
                     "identical across all runs, no file touched by a no-op regenerate, --check exit status exact and side-effect free.",
                ref="§4 C10 (plug-in engines/e2e/fam_c10.py)",
                note="The seed dimension is a bounded deterministic sweep (4/32 of 2^128 seeds x 2 pool sizes; rayon interleavings not controlled): "
                     "evidence says exhaustive:false for it; the history dimension is exhaustive within its bound."),
    "C09": dict(engine="e2e", cat="exploration", tech="bounded-exhaustive blueprint enumeration, verdict + atomicity on every compiler run",
                text="Every pavexc invocation made for the enumerated families (valid and rule-breaking): terminates, exit 0/1, "
                     "error diagnostic iff failure, no panic, and a failing run leaves the SDK already on disk byte-identical.",
                ref="§4 C09"),
    "C11": dict(engine="session_mc", cat="model_checking",
                tech="explicit-state BFS over real Session/SessionStore objects (state = event history replayed on fresh objects), reference map model on every transition",
                text="All reachable states of the session state machine for <=2 requests x <=3 operations (quick; thorough up to 3x2 / 2x4 completed) over "
                     "23 operations, 2 keys, 2 values, presenting current/stale/no cookie, under all 32 session configurations; every return value, "
                     "the store contents and probe requests with current/stale cookies are compared with a reference model; the search runs twice "
                     "with different successor orders and the counts must agree.",
                ref="§4 C11", note="States are merged modulo permutations of keys and values (stated in the evidence); TTL extension is exercised but deadlines "
                                   "are not part of the key; the in-memory store stands in for the backend."),
    "C12": dict(engine="session_mc", cat="model_checking",
                tech="same explicit-state search; at every finalize point the real finalize_session x 128 cookie configurations x 6 crypto configurations",
                text="Same search as C11; in every visited state the Debug output is searched for every known or later-revealed id; at every distinct "
                     "finalize point the real middleware is called with every crypto configuration and cookie configuration: a cookie is attached only "
                     "if it will be signed or encrypted (encrypted if client state is non-empty), otherwise Err and no cookie; attributes equal the configuration.",
                ref="§4 C12", note="Full crypto x cookie product up to 2x2 histories; deeper boxes check the Debug leak only."),
    "C13": dict(engine="store_mc", cat="model_checking",
                tech="explicit-state history enumeration + exhaustive schedule DFS (hand-rolled executor over hook H3) with linearizability oracle",
                text="All operation histories up to the completed depth on both backends against a map-with-expiry reference; all "
                     "task interleavings at lock-acquisition granularity of 2-3 task harnesses on the real in-memory store (per-harness cap on executed "
                     "schedules, never hit on the unchanged tree, reported when hit), "
                     "checked for linearizability; all op-granular merges on SQLite; all statement-granular schedules on SQLite "
                     "(turnstile at every connection acquisition of the sqlx pool), checked for linearizability.",
                ref="§4 C13", note="Timestamp::now()/unixepoch() are not owned: TTL 0 / 1 h and a same-second guard make verdicts "
                                   "clock-independent. No preemption inside a single SQL statement / transaction. One recorded finding (known_findings.json)."),
    "C14": dict(engine="rt_body", cat="exploration", tech="bounded-exhaustive enumeration of frame scripts / Pending placements / headers (hook H1) + loopback chunkings",
                text="Every limit, body length around the limit, frame composition, <=2 Pending placements, Content-Length variant "
                     "in-process, every chunking (HTTP/1.1) and every DATA-frame composition (HTTP/2) over a real loopback server: never more than "
                     "N bytes, byte-identical or size-limit error; and the HISTORY dimension: all ordered pairs of calls on one thread / of requests "
                     "on one worker (the first completed or abandoned) must leave the second one's verdict unchanged.",
                ref="§4 C14, §10.4", note="TCP segmentation below write boundaries and hyper's own re-framing are not controlled."),
    "C15": dict(engine="rt_extract", cat="exploration", tech="bounded-exhaustive enumeration of values x encodings x target shapes vs reference decoder",
                text="All strings up to the bound over a sharp alphabet, every per-character encoding choice, every field/wire "
                     "order, malformed inputs: decoded exactly once, bound by name, or the documented error; never a panic. JSON nesting dimension: "
                     "recursive / self-describing targets x documents nested up to 250 000 (quick) / 1 000 000 (thorough) levels, one child process "
                     "per case (a stack overflow aborts the process): exact value, or DeserializationError beyond 100 containers, nothing else.",
                ref="§4 C15, §11.3", note="Reference decoder in engines/rt_extract/src/refmodel.rs; paths go through a real matchit router."),
    "C16": dict(engine="server_mc", cat="model_checking",
                tech="controlled-scheduler exploration of the real acceptor/worker threads at checkpoints (hook H2): exhaustive BFS of a shadow model, every maximal schedule replayed against the implementation",
                text="All orderings of checkpoint releases and environment actions (connect, send, open gate, shutdown call, late connect) for "
                     "1-2 workers x 1-3 clients x <=2 requests per connection x {Graceful generous, Graceful short, Forced}, plus bulk "
                     "configurations (9-31 interchangeable connections filling the worker queues, symmetry-reduced and phased; the queue capacity is "
                     "MEASURED on the implementation and the configurations scale with it, up to 80 connections); every model "
                     "schedule is executed on a fresh real server and every predicted event is awaited and compared (trace validation); "
                     "oracle on observed facts: requests received before the call are answered, no accept after the call, resolution times.",
                ref="§4 C16, Appendix C", note="Interleavings inside tokio/hyper/kernel below checkpoint granularity are not enumerated; real time is used "
                                             "for timeouts (150 ms / 2 s with 400 ms slack, unsafe executions are re-run); Linux x86_64 only (parking is "
                                             "detected through /proc). Three recorded findings (bytes not yet announced), see known_findings.json."),
    "C19": dict(engine="rt_bp", cat="exploration", tech="bounded-exhaustive enumeration of builder call trees + one annotated item per attribute combination through real rustdoc JSON",
                text="Every well-typed blueprint-builder call tree up to the bound (incl. overriding calls, nesting depth 2) is built through the "
                     "public API, persisted and read back exactly as pavexc does, and compared field by field (locations included) with the value "
                     "a reference builds from the call list; 470 annotated items covering the legal attribute-argument combinations are documented "
                     "with rustdoc JSON and parsed by the real attribute parser. End-to-end half (engines/e2e/fam_c19e.py): every route table of the "
                     "e2e route family that nests blueprints (prefixes, inherited prefixes, domains, domains in domains) is pushed through the real "
                     "pavexc and served; a route that is not served where the registered nesting puts it is a violation.",
                ref="§4 C19, §10.4", note="Part B uses the installed nightly (rustdoc JSON format 57), cached by a hash of the generated crate + macro/parser sources."),
    "C20": dict(engine="rt_domain", cat="exploration", tech="bounded-exhaustive enumeration of guard strings, hosts and guard pairs vs reference validator/matcher (hook H4) through a real matchit router",
                text="All guard strings up to length 6/9 over the DNS+template alphabet plus length edge cases vs an independent validator; every accepted "
                     "guard x every host of the host universe through a real matchit router with the generated normalisation (recovered from the "
                     "generator source and self-checked); all pairs of accepted guards vs the conflict detector.",
                ref="§4 C20", note="In-process half: the generated normalisation and the conflict detector are replicated and guarded by run-time source "
                                   "self-checks (a change there is a machinery error or a routing violation, never silence). Three recorded findings."),
    "C17": dict(engine="rt_typealg", cat="exploration", tech="bounded-exhaustive enumeration of type trees, all ordered pairs and triples",
                text="All Type trees up to depth 2 (quick) / 3 (thorough): template law incl. mutability, equivalence "
                     "reflexive/symmetric/transitive and sound vs brute-force bijection search, canonical forms, render round-trip.",
                ref="§4 C17", note="Independent syn->Type reader and brute-force equivalence reference in the engine."),
    "C18": dict(engine="rt_config", cat="exploration", tech="bounded-exhaustive enumeration of source assignments, one process per case",
                text="Every assignment of 3 (nested) keys to subsets of {base, profile, env}, profiles, profile sources, "
                     "directory modes and target structs, each in a fresh process with a controlled environment; plus same-process "
                     "histories (the load under observation preceded by a load of the other profile from the same directory).",
                ref="§4 C18, §10.4", note="A missing profile *file* is tolerated by the loader and not asserted (documented ambiguity)."),
}

NOT_YET = {
}


def main():
    hooks = subprocess.run(["git", "-C", "/repo", "log", "--format=%h %s"], capture_output=True, text=True).stdout.splitlines()
    hook_commits = [l.split()[0] for l in hooks if l.split(" ", 1)[1].startswith("verif hook")]
    checks = []
    for pid in sorted(CHECKS):
        c = CHECKS[pid]
        checks.append({
            "property_id": pid,
            "quick_cmd": f"./check {pid} --tier quick",
            "thorough_cmd": f"./check {pid} --tier thorough",
            "evidence_file": f"/verif/evidence/{pid}.json",
            "replay_cmd_template": f"./check {pid} --replay {{path}}",
            "engine": c["engine"],
            "level_claimed": {"category": c["cat"], "text": c["text"], "design_ref": c["ref"]},
            "level_note": c.get("note", E2E_NOTE),
            "technique": c["tech"],
        })
    m = {
        "version": 1,
        "setup_cmd": "./setup.sh",
        "hooks": {
            "guard": "cargo feature `verif_hooks` (crates pavex, pavex_session_memory_store, pavexc); off by default",
            "enable": "harness crates depend on the /repo crates by path with features=[\"verif_hooks\"] (engines/Cargo.toml)",
            "baseline_off_cmd": "cd /repo && cargo test --workspace --no-fail-fast --offline",
            "source_commits": hook_commits,
            "add_only": True,
        },
        "engines": [
            {"name": "e2e", "path": "engines/e2e", "serves_properties": ["C01", "C02", "C03", "C04", "C05", "C06", "C07", "C08", "C09", "C10"],
             "kind_free_text": "bounded-exhaustive program enumeration through the real compiler, rustc and generated server"},
            {"name": "store_mc", "path": "engines/store_mc", "serves_properties": ["C13"], "kind_free_text": "explicit-state + controlled scheduler"},
            {"name": "session_mc", "path": "engines/session_mc", "serves_properties": ["C11", "C12"], "kind_free_text": "explicit-state BFS over real Session objects"},
            {"name": "server_mc", "path": "engines/server_mc", "serves_properties": ["C16"], "kind_free_text": "controlled-scheduler exploration via checkpoints"},
            {"name": "rt_body", "path": "engines/rt_body", "serves_properties": ["C14"], "kind_free_text": "bounded-exhaustive input enumeration"},
            {"name": "rt_extract", "path": "engines/rt_extract", "serves_properties": ["C15"], "kind_free_text": "bounded-exhaustive input enumeration"},
            {"name": "rt_typealg", "path": "engines/rt_typealg", "serves_properties": ["C17"], "kind_free_text": "bounded-exhaustive input enumeration"},
            {"name": "rt_config", "path": "engines/rt_config", "serves_properties": ["C18"], "kind_free_text": "bounded-exhaustive configuration enumeration"},
            {"name": "rt_bp", "path": "engines/rt_bp", "serves_properties": ["C19"], "kind_free_text": "bounded-exhaustive call-sequence enumeration"},
            {"name": "rt_domain", "path": "engines/rt_domain", "serves_properties": ["C20"], "kind_free_text": "bounded-exhaustive input enumeration"},
        ],
        "checks": checks,
        "not_applicable": [{"property_id": p, "reason": r} for p, r in sorted(NOT_YET.items()) if p not in CHECKS],
        "notes": "See DESIGN.md. Exit 2 + MACHINERY-ERROR is never a verdict. known_findings.json lists recorded and fixed defects.",
    }
    with open("/verif/MANIFEST.json", "w") as f:
        json.dump(m, f, indent=1)
    print(f"MANIFEST: {len(checks)} checks, {len(m['not_applicable'])} not yet claimed")


if __name__ == "__main__":
    main()
