#!/usr/bin/env bash
# usage: eval_all_official.sh C01 C02 ...  — official procedure, sequential, on /repo itself
for p in "$@"; do
  for n in 1 2; do
    d=${SEED_PREFIX:-/tmp/seed-}$p/SEED$n
    [ -f $d/patch.diff ] || continue
    [ -s $d/result.json ] && continue
    python3 /verif/tools/eval_seed.py $d --props $p 2>&1 | tail -3
  done
done
