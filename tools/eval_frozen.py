#!/usr/bin/env python3
"""First-measurement evaluation of a seeded change for an e2e property (C01-C10) with a FROZEN copy of the e2e harness
(so that the harness can keep evolving while the measurement runs): the patch is applied in a scratch worktree, pavexc is
built from it (VERIF_E2E_REPO), and the frozen orchestrator runs the property's quick tier in its own namespace.

usage: eval_frozen.py <property> <scratch worktree> <patch.diff> <frozen e2e dir> <namespace> <out.json>
"""
import json
import os
import subprocess
import sys
import time

prop, wt, patch, harness, ns, out = sys.argv[1:7]
wt, patch = os.path.abspath(wt), os.path.abspath(patch)


def sh(cmd, **kw):
    return subprocess.run(cmd, shell=True, stdout=subprocess.PIPE, stderr=subprocess.STDOUT, text=True, **kw)


sh("git checkout -- . && git clean -fdq", cwd=wt)
r = sh(f"git apply {patch}", cwd=wt)
if r.returncode != 0:
    json.dump({"property": prop, "patch": patch, "error": "patch does not apply", "out": r.stdout[-500:]}, open(out, "w"), indent=1)
    sys.exit(2)
t0 = time.time()
try:
    env = dict(os.environ, VERIF_E2E_REPO=wt, VERIF_E2E_NS=ns)
    r = sh(f"python3 {harness}/orchestrator.py {prop} --tier quick", cwd="/verif", env=env)
    lines = [l for l in r.stdout.splitlines() if l.startswith(("VIOLATION", "KNOWN-FINDING", "RESULT", "MACHINERY-ERROR", "  detail"))]
    detected = r.returncode == 1 and any(l.startswith("VIOLATION") for l in lines)
    json.dump({"property": prop, "patch": patch, "harness": harness, "exit": r.returncode, "detected": detected,
               "wall_s": round(time.time() - t0, 1), "at": time.strftime("%Y-%m-%d %H:%M:%S"),
               "lines": [l[:400] for l in lines if not l.startswith("KNOWN-FINDING")][:12],
               "tail": r.stdout[-1500:] if r.returncode == 2 else ""}, open(out, "w"), indent=1)
    print(prop, os.path.basename(os.path.dirname(patch)), "exit", r.returncode, "detected", detected, f"{time.time() - t0:.0f}s")
finally:
    sh("git checkout -- . && git clean -fdq", cwd=wt)
    sh("git -C /verif checkout -- evidence")
