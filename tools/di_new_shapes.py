#!/usr/bin/env python3
"""Development helper: run only the DI-INH / DI-ABA shapes of the di family (those whose first op is a `..S2` registration)."""
import sys
sys.path.insert(0, "/verif/engines/e2e")
import families as F  # noqa: E402
import lib_e2e as L  # noqa: E402
import orchestrator  # noqa: E402
import oracles as O  # noqa: E402
from report import Reporter  # noqa: E402
L.ensure_built(); L.warm_cache()
if len(sys.argv) > 1 and sys.argv[1] == "mixC":
    import json
    seen, shapes = set(), []
    for cn, r, cfg in F.mix_configs(2):
        sh = F.mix_shape(cfg) if cn == "C" else None
        if sh is not None and json.dumps(sh, sort_keys=True) not in seen:
            seen.add(json.dumps(sh, sort_keys=True))
            shapes.append(sh)
    FAMN = "mix"
else:
    shapes = [s for s in F.di_shapes("quick") if s[0].get("c", "").endswith("S2")]
    FAMN = "di"
o = orchestrator.observe_packable_family(FAMN, "quick", shapes)
for prop in ("C09", "C02", "C01", "C03", "C04"):
    rep = Reporter(prop, "quick", 0)
    lvl, cov, asm = O.ORACLES[prop]({FAMN: o}, rep, "quick") if prop in ("C09",) else (None, {}, None)
    if prop != "C09":
        base = {"C02": O.oracle_c02, "C01": O.oracle_c01, "C03": O.oracle_c03, "C04": O.oracle_c04}[prop]
        lvl, cov, asm = base({FAMN: o}, rep, "quick")
    print(f"RESULT {prop} shapes={len(shapes)} violations={rep.new_violations()} evaluations={cov.get('evaluations')}")
