#!/usr/bin/env python3
"""Confirm a seeded change in its scratch worktree before keeping it (brief: "keep a change only after
you have confirmed all of that yourself"): with the patch applied the affected crates' existing tests
pass and the demonstration FAILS; without it the demonstration PASSES.

usage: confirm_seed.py <worktree> <SEEDn dir inside the worktree> <out json>
Demonstration: `demo/run.sh` if present (exit 0 = property holds), else the demo test file named in
RUN.md's `cp <file>.rs <crate>/tests/` line is copied into that crate and run with cargo test.
Existing tests: `cargo test --offline -p <pkg>` for every package owning a changed file.
CARGO_TARGET_DIR is forced to /tmp/confirm-target (shared; removed by the caller).
"""
import json
import os
import re
import subprocess
import sys
import time

wt, seed, out = os.path.abspath(sys.argv[1]), os.path.abspath(sys.argv[2]), sys.argv[3]
TARGET = os.environ.get("CONFIRM_TARGET", "/tmp/confirm-target")
ENV = dict(os.environ, CARGO_NET_OFFLINE="true", CARGO_PROFILE_DEV_DEBUG="0", CARGO_INCREMENTAL="0", CARGO_TARGET_DIR=TARGET)


def sh(cmd, cwd=wt, timeout=3600):
    t0 = time.time()
    try:
        r = subprocess.run(["bash", "-c", cmd], cwd=cwd, stdout=subprocess.PIPE, stderr=subprocess.STDOUT, text=True, env=ENV, timeout=timeout)
        code, outp = r.returncode, r.stdout
    except subprocess.TimeoutExpired as e:
        code, outp = 124, (e.stdout or "") if isinstance(e.stdout, str) else ""
    return {"cmd": cmd, "exit": code, "s": round(time.time() - t0, 1), "tail": outp[-500:]}


def clean():
    subprocess.run("git checkout -- . && git clean -fdq -e 'SEED*'", shell=True, cwd=wt)


def pkg_of(path):
    d = os.path.dirname(os.path.join(wt, path))
    while d.startswith(wt):
        m = os.path.join(d, "Cargo.toml")
        if os.path.exists(m):
            s = open(m).read()
            mm = re.search(r'\[package\][^\[]*?name\s*=\s*"([^"]+)"', s, re.S)
            if mm:
                return mm.group(1)
        d = os.path.dirname(d)
    return None


def main():
    meta = json.load(open(f"{seed}/meta.json"))
    rel = os.path.relpath(seed, wt)
    res = {"seed": seed}
    run_sh = f"{seed}/demo/run.sh"
    run_md = open(f"{seed}/demo/RUN.md").read() if os.path.exists(f"{seed}/demo/RUN.md") else ""
    cp = re.search(r"cp\s+(\S+\.rs)\s+(\S+/tests)/?", run_md)
    if os.path.exists(run_sh):
        demo = lambda: sh(f"bash {rel}/demo/run.sh")
        res["demo_kind"] = "run.sh"
    elif cp:
        src, tests_dir = cp.group(1), cp.group(2).rstrip("/")
        src = src if src.startswith("/") else os.path.join(wt, src)
        if not os.path.exists(src):
            src = os.path.join(seed, "demo", os.path.basename(src))
        name = os.path.basename(src)[:-3]
        pkg = pkg_of(os.path.join(tests_dir, "x.rs").replace(wt + "/", ""))
        res["demo_kind"] = f"test file {name} in {tests_dir} (package {pkg})"

        def demo():
            subprocess.run(f"mkdir -p {tests_dir} && cp {src} {tests_dir}/", shell=True, cwd=wt)
            r = sh(f"cargo test --offline -p {pkg} --test {name}")
            subprocess.run(f"rm -f {tests_dir}/{name}.rs", shell=True, cwd=wt)
            return r
    else:
        res["demo_kind"] = "unrecognised"
        demo = None
    clean()
    res["without"] = demo() if demo else None
    clean()
    ap = subprocess.run(["git", "apply", f"{seed}/patch.diff"], cwd=wt)
    res["patch_applies"] = ap.returncode == 0
    res["with"] = demo() if demo else None
    pkgs = sorted({p for p in (pkg_of(f) for f in meta.get("files_changed", [])) if p})
    res["packages"] = pkgs
    res["existing"] = [sh(f"cargo test --offline -p {p}") for p in pkgs]
    clean()
    res["demo_fails_with_change"] = bool(res["with"]) and res["with"]["exit"] != 0
    res["demo_passes_without_change"] = bool(res["without"]) and res["without"]["exit"] == 0
    # pavex_session_sqlx: the mysql/postgres integration tests need servers that the sandbox lacks
    # (always_fail in BASELINE.json); judge that crate by its lib + sqlite tests only.
    ok = True
    for p, e in zip(pkgs, res["existing"]):
        if e["exit"] != 0:
            if p == "pavex_session_sqlx":
                e2 = sh("cargo test --offline -p pavex_session_sqlx --lib --test sqlite")
                res.setdefault("existing_sqlx_subset", e2)
                ok = ok and e2["exit"] == 0
            else:
                ok = False
    res["existing_tests_green"] = bool(pkgs) and ok
    res["confirmed"] = bool(res["patch_applies"] and res["demo_fails_with_change"] and res["demo_passes_without_change"]
                            and res["existing_tests_green"])
    json.dump(res, open(out, "w"), indent=1)
    print(os.path.basename(wt), os.path.basename(seed), res["demo_kind"][:60],
          {k: res[k] for k in ("patch_applies", "demo_fails_with_change", "demo_passes_without_change", "existing_tests_green", "confirmed")})


main()
