#!/usr/bin/env python3
"""Confirm a seeded change in its scratch worktree before keeping it (brief: "keep a change only after
you have confirmed all of that yourself"): with the patch applied the affected crates' existing tests
pass and the demonstration FAILS; without it the demonstration PASSES.

usage: confirm_seed.py <worktree> <SEEDn dir inside the worktree> <out json>
The commands are taken from the seed's demo/RUN.md (indented lines under the headings
"With the change", "Without the change", "Existing tests"); CARGO_TARGET_DIR is forced to
/tmp/confirm-target (shared, removed by the caller).
"""
import json
import os
import re
import subprocess
import sys
import time

wt, seed, out = sys.argv[1], sys.argv[2], sys.argv[3]
TARGET = os.environ.get("CONFIRM_TARGET", "/tmp/confirm-target")


def sections(text):
    cur, res = None, {}
    for line in text.splitlines():
        h = re.match(r"^#+\s*(.*)", line)
        if h:
            t = h.group(1).lower()
            if "without the change" in t or "without change" in t or "original" in t:
                cur = "without"
            elif "with the change" in t or "with change" in t:
                cur = "with"
            elif "existing" in t:
                cur = "existing"
            else:
                cur = None
            continue
        if cur and (line.startswith("    ") or line.startswith("\t")) and line.strip() and not line.strip().startswith("#"):
            res.setdefault(cur, []).append(line.strip())
    return res


def run_cmds(cmds):
    log = []
    for c in cmds:
        c = re.sub(r"CARGO_TARGET_DIR=\S+", f"CARGO_TARGET_DIR={TARGET}", c)
        if "cargo" in c and "CARGO_TARGET_DIR" not in c:
            c = f"CARGO_TARGET_DIR={TARGET} " + c
        t0 = time.time()
        r = subprocess.run(["bash", "-c", c], cwd=wt, stdout=subprocess.PIPE, stderr=subprocess.STDOUT, text=True,
                           env=dict(os.environ, CARGO_NET_OFFLINE="true", CARGO_PROFILE_DEV_DEBUG="0", CARGO_INCREMENTAL="0"))
        log.append({"cmd": c, "exit": r.returncode, "s": round(time.time() - t0, 1), "tail": r.stdout[-600:]})
    return log


def clean():
    subprocess.run("git checkout -- . && git clean -fdq -e 'SEED*' ", shell=True, cwd=wt)


def main():
    run_md = open(f"{seed}/demo/RUN.md").read()
    sec = sections(run_md)
    res = {"seed": seed, "sections_found": {k: len(v) for k, v in sec.items()}}
    clean()
    res["without"] = run_cmds(sec.get("without", []))
    clean()
    res["with"] = run_cmds(sec.get("with", []))
    clean()
    ap = subprocess.run(["git", "apply", f"{seed}/patch.diff"], cwd=wt)
    res["patch_applies"] = ap.returncode == 0
    existing = [c for c in sec.get("existing", []) if "cargo" in c]
    # doctests are slow and cannot observe a source mutant that unit/integration tests miss only rarely;
    # keep them (the baseline includes doctests)
    res["existing"] = run_cmds(existing)
    clean()
    is_test = lambda e: re.search(r"cargo (\+\S+ )?(test|run|nextest)", e["cmd"])
    res["demo_fails_with_change"] = any(e["exit"] != 0 for e in res["with"] if is_test(e))
    res["demo_passes_without_change"] = bool(res["without"]) and all(e["exit"] == 0 for e in res["without"] if is_test(e))
    res["existing_tests_green"] = bool(res["existing"]) and all(e["exit"] == 0 for e in res["existing"])
    res["confirmed"] = bool(res["patch_applies"] and res["demo_fails_with_change"] and res["demo_passes_without_change"]
                            and res["existing_tests_green"])
    json.dump(res, open(out, "w"), indent=1)
    print(os.path.basename(os.path.dirname(seed.rstrip("/"))), os.path.basename(seed.rstrip("/")),
          {k: res[k] for k in ("patch_applies", "demo_fails_with_change", "demo_passes_without_change", "existing_tests_green", "confirmed")})


main()
