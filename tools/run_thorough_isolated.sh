#!/usr/bin/env bash
# Run thorough tiers of the e2e properties against a clean worktree of /repo HEAD in namespace -th
# (so that /repo can be used for seed evaluation meanwhile). Evidence is saved aside.
cd /verif
mkdir -p /verif/work/thorough
for p in "$@"; do
  s=$(date +%s)
  VERIF_E2E_NS=-th VERIF_E2E_REPO=/tmp/my-wt python3 engines/e2e/orchestrator.py $p --tier thorough > /verif/work/thorough/$p.log 2>&1
  rc=$?
  cp /verif/evidence/$p.json /verif/work/thorough/$p.evidence.json 2>/dev/null
  git -C /verif checkout -- evidence/$p.json 2>/dev/null
  echo "$p exit=$rc $(( $(date +%s) - s ))s $(grep -c '^VIOLATION' /verif/work/thorough/$p.log) violations $(grep -c '^KNOWN' /verif/work/thorough/$p.log) known"
done
