#!/usr/bin/env bash
# usage: r4_e2e_worker.sh <letter> <queue file>   — queue lines: "<prop> <seedP> <n> <fams>"
# Targeted measurement of round-4 e2e seeds: one scratch worktree per worker (incremental pavexc builds), own namespace.
L=$1; Q=$2
WT=/tmp/eval4-$L
[ -d $WT ] || git -C /repo worktree add --detach $WT HEAD >/dev/null 2>&1
while read -r prop sp n fams tag; do
  [ -z "$prop" ] && continue
  out=/verif/work/evalseeds/r4-${tag:-first}-$sp-$n-$prop.json
  [ -s $out ] && continue
  python3 /verif/tools/now_family.py $prop $fams $WT /verif/seeded/$sp-r4s$n/patch.diff -r4$L $out
done < $Q
