#!/usr/bin/env python3
"""Keep the confirmed round-3 seeds under /verif/seeded/<P>-r3s<n>/ with their confirmation and measurements.
Idempotent: re-run to refresh meta.json when more measurements are available.
usage: keep_r3.py [round=3]"""
import glob
import json
import os
import shutil
import sys

rnd = sys.argv[1] if len(sys.argv) > 1 else "3"
NOTES = json.load(open(f"/verif/tools/r{rnd}_notes.json")) if os.path.exists(f"/verif/tools/r{rnd}_notes.json") else {}
for conf_path in sorted(glob.glob(f"/verif/work/confirm/r{rnd}-C*-*.json")):
    base = os.path.basename(conf_path)[:-5]
    _, p, n = base.split("-")
    conf = json.load(open(conf_path))
    src = f"/tmp/seed{rnd}-{p}/SEED{n}"
    dst = f"/verif/seeded/{p}-r{rnd}s{n}"
    if not conf.get("confirmed"):
        print(p, n, "not confirmed: skipped")
        continue
    if os.path.isdir(src):
        os.makedirs(dst, exist_ok=True)
        shutil.copy(f"{src}/patch.diff", f"{dst}/patch.diff")
        if os.path.isdir(f"{dst}/demo"):
            shutil.rmtree(f"{dst}/demo")
        shutil.copytree(f"{src}/demo", f"{dst}/demo", ignore=shutil.ignore_patterns("target", "*.lock", "generated", "Cargo.lock"))
        orig = json.load(open(f"{src}/meta.json"))
    elif os.path.exists(f"{dst}/meta.json"):
        orig = json.load(open(f"{dst}/meta.json"))
    else:
        print(p, n, "source gone and nothing kept: skipped")
        continue
    detection = []
    for kind, label in (("first", "first measurement"), ("first-e2e", "first measurement, e2e half"), ("now", f"after the extensions of round {rnd}")):
        tag = {"first": f"r{rnd}-first-{p}-{n}", "first-e2e": f"r{rnd}-first-{p}e-{n}", "now": f"r{rnd}-now-{p}-{n}"}[kind]
        f = f"/verif/work/evalseeds/{tag}.json"
        if not os.path.exists(f):
            continue
        txt = open(f).read()
        try:
            ev, _ = json.JSONDecoder().raw_decode(txt[txt.index("{"):])
        except Exception:
            ev = {"raw": txt[-600:]}
        detection.append({"when": label,
                          "procedure": ev.get("procedure") or ("frozen copy of the e2e harness as it was before the round-3 extensions (tools/eval_frozen.py), pavexc built "
                                                                "from a scratch worktree with the patch" if ev.get("harness") else
                                                                "scratch copy of the engine pointing at a worktree with the patch (tools/eval_seed_scratch.py)"),
                          "at": ev.get("at"), "exit": ev.get("exit"), "detected": ev.get("detected"), "wall_s": ev.get("wall_s"),
                          "lines": [l[:300] for l in (ev.get("lines") or [])[:4]]})
    meta = {
        "breaks": p,
        "round": int(rnd),
        "summary": orig.get("summary"),
        "needs_to_manifest": orig.get("needs_to_manifest") or orig.get("what_it_needs_to_manifest"),
        "files_changed": orig.get("files_changed"),
        "origin": "independent sub-agent given only the property text, a scratch worktree and one-line summaries of earlier seeds",
        "confirmed_by_me": orig.get("confirmed_by_me") or {
            "how": "tools/confirm_seed.py in the seed's scratch worktree",
            "demo_kind": conf.get("demo_kind"),
            "existing_tests": [{"cmd": e["cmd"], "exit": e["exit"]} for e in conf.get("existing", [])],
            "demo_without_change_exit": conf["without"]["exit"],
            "demo_with_change_exit": conf["with"]["exit"],
        },
        "detection": detection,
    }
    if f"{p}-{n}" in NOTES:
        meta["note"] = NOTES[f"{p}-{n}"]
    json.dump(meta, open(f"{dst}/meta.json", "w"), indent=1)
    print(p, n, "kept;", [(d["when"].split(",")[0][:5], d["detected"]) for d in detection])
