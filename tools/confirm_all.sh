#!/usr/bin/env bash
# usage: confirm_all.sh C13 C14 ...   (sequential; shared target dir removed at the end)
for p in "$@"; do
  for n in 1 2; do
    d=${SEED_PREFIX:-/tmp/seed-}$p/SEED$n
    [ -f $d/patch.diff ] || continue
    [ -f /verif/work/confirm/${SEED_TAG:-}$p-$n.json ] && continue
    python3 /verif/tools/confirm_seed.py ${SEED_PREFIX:-/tmp/seed-}$p $d /verif/work/confirm/${SEED_TAG:-}$p-$n.json
  done
done
rm -rf /tmp/confirm-target
