#!/usr/bin/env bash
# Run every registered quick check once, print a one-line summary each.
cd /verif
for p in C01 C02 C03 C04 C05 C06 C07 C08 C09 C10 C11 C12 C13 C14 C15 C16 C17 C18 C19 C20; do
  s=$(date +%s)
  out=$(./check $p --tier quick 2>&1); rc=$?
  e=$(( $(date +%s) - s ))
  echo "$p exit=$rc ${e}s $(echo "$out" | grep -c '^VIOLATION') violations, $(echo "$out" | grep -c '^KNOWN-FINDING') known | $(echo "$out" | grep '^MACHINERY' | head -1 | cut -c1-150)"
done
python3-vt - <<'PY'
import json, jsonschema, glob
sch = json.load(open('/root/.vp/EVIDENCE.schema.json'))
bad = 0
for f in sorted(glob.glob('/verif/evidence/*.json')):
    try:
        jsonschema.validate(json.load(open(f)), sch)
    except Exception as e:
        bad += 1
        print(f, 'EVIDENCE INVALID:', str(e)[:200])
jsonschema.validate(json.load(open('/verif/MANIFEST.json')), json.load(open('/root/.vp/MANIFEST.schema.json')))
print(f"evidence files invalid: {bad}; manifest valid")
PY
