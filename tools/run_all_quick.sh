#!/usr/bin/env bash
# Run every registered quick check once, print a one-line summary each.
cd /verif
for p in C01 C02 C03 C04 C05 C06 C07 C08 C09 C10 C11 C12 C13 C14 C15 C16 C17 C18 C19 C20; do
  s=$(date +%s)
  out=$(./check $p --tier quick 2>&1); rc=$?
  e=$(( $(date +%s) - s ))
  echo "$p exit=$rc ${e}s $(echo "$out" | grep -c '^VIOLATION') violations, $(echo "$out" | grep -c '^KNOWN-FINDING') known | $(echo "$out" | grep '^MACHINERY' | head -1 | cut -c1-150)"
done
