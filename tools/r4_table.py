#!/usr/bin/env python3
"""Regenerate the seed table of DESIGN.md §11.2 from /verif/seeded/*-r4s*/meta.json (between the markers)."""
import glob
import json
import re

WHAT = json.load(open("/verif/tools/r4_what.json"))
rows = ["| seed | first | now | what it is → what was missing / added |", "|---|---|---|---|"]
n_first = {"caught": 0, "MISSED": 0, "n/a": 0, "added*": 0}
for m in sorted(glob.glob("/verif/seeded/*-r4s*/meta.json")):
    sid = m.split("/")[-2]
    d = json.load(open(m))
    first = [x for x in d["detection"] if x["when"].startswith("first")]
    now = [x for x in d["detection"] if x["when"].startswith("after")]

    def verdict(xs):
        if not xs:
            return "—"
        if any(x.get("detected") for x in xs):
            return "caught"
        if any(x.get("exit") == 2 for x in xs):
            return "MISSED (exit 2)"
        return "MISSED"
    f, nw = verdict(first), verdict(now)
    note = d.get("note", "")
    if f == "—" and "MISSED" in note:
        f = "MISSED"
    if "added*" in note:
        f = "added*"
    if "note" in d and d["note"].startswith("NOT a violation"):
        f, nw = "n/a", "n/a"
    if nw == "—":
        nw = f if f == "caught" else ("MISSED" if f.startswith("MISSED") else f)
    n_first["caught" if f == "caught" else ("added*" if f == "added*" else ("n/a" if f in ("n/a", "—") else "MISSED"))] += 1
    rows.append(f"| {sid} | {f} | {nw} | {WHAT.get(sid, (d.get('summary') or '')[:160])} |")
table = "\n".join(rows) + f"\n\nFirst measurement: {n_first['caught']} caught, {n_first['MISSED']} missed, {n_first['added*']} added* (shapes added from the seeder's report before the measurement), {n_first['n/a']} not measured."
p = "/verif/DESIGN.md"
s = open(p).read()
if "@@R4TABLE@@" in s:
    s = s.replace("@@R4TABLE@@", "<!-- r4table -->\n" + table + "\n<!-- /r4table -->")
else:
    s = re.sub(r"<!-- r4table -->.*?<!-- /r4table -->", "<!-- r4table -->\n" + table.replace("\\", "\\\\") + "\n<!-- /r4table -->", s, flags=re.S)
open(p, "w").write(s)
print(table[-200:])
