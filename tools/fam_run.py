#!/usr/bin/env python3
"""Development helper: observe only the named families (current harness, /repo or VERIF_E2E_REPO) and evaluate the oracles of
the given properties on them. usage: fam_run.py <P1,P2,...> <fam1,fam2> [tier]   (use VERIF_E2E_NS to stay out of the way)"""
import sys
sys.path.insert(0, "/verif/engines/e2e")
import lib_e2e as L  # noqa: E402
import orchestrator  # noqa: E402
import oracles as O  # noqa: E402
from report import Reporter  # noqa: E402

props, fams = sys.argv[1].split(","), sys.argv[2].split(",")
tier = sys.argv[3] if len(sys.argv) > 3 else "quick"
L.ensure_built()
L.warm_cache()
th = L.tree_hash()
obs = {f: orchestrator.load_family(f, tier, th) for f in fams}
for prop in props:
    for _ in range(10):
        rep = Reporter(prop, tier, 0)
        try:
            level, cov, asm = O.ORACLES[prop](obs, rep, tier)
            break
        except KeyError as e:
            fam = e.args[0]
            if fam in obs or not isinstance(fam, str):
                raise
            print(f"(loading family {fam} as well)")
            obs[fam] = orchestrator.load_family(fam, tier, th)
    print(f"RESULT property={prop} families={sys.argv[2]} violations={rep.new_violations()} known={len(rep.violations) - rep.new_violations()} "
          f"evaluations={cov.get('evaluations')} wall={ {f: o.get('observe_wall_s') for f, o in obs.items()} }")
