#!/usr/bin/env bash
# Build everything the checks need, offline, from files on disk only. Idempotent.
set -euo pipefail
export CARGO_NET_OFFLINE=true
VERIF=/verif
WORK=$VERIF/work
mkdir -p "$WORK" "$VERIF/evidence" "$VERIF/replays"

log() { echo "[setup $(date +%H:%M:%S)] $*"; }

# ---------------------------------------------------------------------------------------------
# 1. Docs toolchain for pavexc: the installed nightly + JSON docs for core/alloc/std built from
#    rust-src (the `rust-docs-json` component is not installed). See DESIGN.md §2.1.
# ---------------------------------------------------------------------------------------------
TC=$WORK/toolchain
NIGHTLY_DIR=$(rustup +nightly which rustc | sed 's#/bin/rustc$##')
if [ ! -s "$TC/share/doc/rust/json/std.json" ]; then
  log "building std/core/alloc JSON docs with $NIGHTLY_DIR"
  rm -rf "$WORK/stdsrc" "$TC"
  mkdir -p "$WORK/stdsrc" "$TC/share/doc/rust/json"
  cp -r "$NIGHTLY_DIR/lib/rustlib/src/rust/library" "$WORK/stdsrc/library"
  (cd "$WORK/stdsrc/library" && \
    RUSTC_BOOTSTRAP=1 CARGO_TARGET_DIR="$WORK/stdsrc/target" \
    RUSTDOCFLAGS="-Zunstable-options --output-format json --cap-lints allow" \
    cargo +nightly doc --offline --no-deps -p core -p alloc -p std >"$WORK/stdsrc/doc.log" 2>&1) \
    || { tail -30 "$WORK/stdsrc/doc.log"; echo "MACHINERY-ERROR std json docs failed"; exit 2; }
  cp "$WORK"/stdsrc/target/doc/{core,alloc,std}.json "$TC/share/doc/rust/json/"
  ln -sfn "$NIGHTLY_DIR/bin" "$TC/bin"
  ln -sfn "$NIGHTLY_DIR/lib" "$TC/lib"
  rm -rf "$WORK/stdsrc"
fi
if ! rustup toolchain list | grep -q '^pavex-verif-docs'; then
  rustup toolchain link pavex-verif-docs "$TC"
fi

# ---------------------------------------------------------------------------------------------
# 2. getrandom interposer used by C10 (deterministic hash seeds).
# ---------------------------------------------------------------------------------------------
if [ -f "$VERIF/engines/shim/getrandom_shim.c" ]; then
  mkdir -p "$WORK/shim"
  gcc -O2 -shared -fPIC -o "$WORK/shim/libgetrandom_shim.so" "$VERIF/engines/shim/getrandom_shim.c" -ldl
fi

# ---------------------------------------------------------------------------------------------
# 3. pavexc from /repo's working tree, and the harness workspace.
# ---------------------------------------------------------------------------------------------
log "building pavexc (release) from /repo"
(cd /repo && CARGO_TARGET_DIR="$WORK/target-repo" cargo build --release --offline -p pavexc_cli 2>&1 | tail -3)
log "building harness workspace"
(cd "$VERIF/engines" && cargo build --release --offline 2>&1 | tail -3)
if [ -f "$VERIF/engines/e2e/setup_e2e.py" ]; then
  log "preparing e2e workspaces"
  python3 "$VERIF/engines/e2e/setup_e2e.py"
fi
log "setup done"
